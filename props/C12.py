"""C12 -- approximate contraction is exact when untruncated and obeys its bond cap."""
import drivers.c12  # noqa: F401   (registers the drivers)

PROP = "C12"
LEVEL = "exploration"
LEVEL_TEXT = "tbd"
LEVEL_NOTE = "tbd"
TECHNIQUE = "run-time contracts on the real functions vs independent numpy references over a stated bounded domain (bounded stand-in)"
E1 = []
PROVIDERS = []
TRUSTED = ["numpy einsum reference computations"]
ASSUMPTIONS = []
EXPLANATION = "tbd"
