"""C12 -- approximate contraction is exact when untruncated and obeys its bond cap."""
import drivers.c12  # noqa: F401   (registers the drivers)

PROP = "C12"
LEVEL = "exploration"
LEVEL_TEXT = ("Bounded run-time contracts only: every compressed contraction scheme (2D / 3D boundary contraction from every "
              "side, in 13 / 7 sequences and every registered mode, row / column / plaquette environments, HOTRG, CTMRG, "
              "coarse graining, compressed contraction of arbitrary graphs along several trees, compress_all* and the "
              "arbitrary-geometry compressors) is run on small random networks (a) with max_bond above every exact bond and "
              "cutoff=0, where the returned value / denoted tensor must equal the exact contraction computed by numpy, and (b) "
              "with a small cap, where every bond of the network handed back (final_contract=False, lazy, in-place inspection, "
              "callback hooks) must be within the cap; stored environments must reproduce the value of the whole when joined "
              "with the part they exclude. Nothing is proved for unbounded sizes.")
LEVEL_NOTE = ("Trusted: the driver's own pairwise numpy einsum contraction of the raw tensor data (x 10**exponent) as the value "
              "of a network; tolerances 1e-8 (double) / 2e-3 (single) relative, x10 for environments and coarse graining, x100 "
              "for variational / randomized / gauge-based modes; domain bounds as stated per driver.")
TECHNIQUE = "run-time contracts on the real functions vs independent numpy references over a stated bounded domain (bounded stand-in)"
E1 = []
PROVIDERS = []
TRUSTED = [
    "numpy einsum on dense arrays (reference value of a network: sum over all labels of the product of the raw tensor data)",
    "cotengra path optimisers return valid contraction paths (process pools disabled inside the harness workers)",
]
ASSUMPTIONS = [
    "2D: random flat lattices 1x1..5x3 (bond 2..3; open, and 3x3 / 4x3 / 3x4 with periodic directions), PEPS norm networks "
    "(two layers, up to 4x3) and bra/operator/ket sandwiches (three layers, up to 3x3); 3D: random lattices 1x1x1..3x3x3 "
    "and 2x2x4 with bond 2 (3 on 2x2x2); arbitrary geometry: random trees, 3-regular and sparse graphs with 1..8 tensors, "
    "bonds 2..3; dtypes float32/64, complex64/128; stored exponent absent / set / produced by equalize_norms_",
    "'untruncated' means max_bond=4096 (or, for the modes that allocate sketches / guesses of size max_bond, a bound "
    "computed from the geometry: bond-per-edge ** (longest side - 1), squared x bond for periodic lattices) and cutoff=0",
    "'obeys the cap' is checked with caps in [D, D^2-1] (so that untouched original bonds never exceed it) on the network "
    "handed over by final_contract=False / lazy=True / max_separation=2 / around=..., on stored environments, and through "
    "callback_post_compress / callback for contract_compressed and contract_around (per-step invariant only for "
    "compress_late=False)",
    "option combinations that quimb rejects with an explicit NotImplementedError (mode='full-bond' with equalize_norms) "
    "are outside the domain; CTMRG is run with its documented mode 'projector'; a truncating 'local-fit' compression only on "
    "graphs with <= 5 tensors and bond 2 (it solves dense normal equations over the neighbourhood)",
    "contract_simple_sweep / compress_all_simple get cutoff=0 explicitly (their default cutoff 1e-10 truncates the collapsing "
    "simple-update gauges of closed networks and is outside the premise of the property)",
    "tolerances: 1e-8 (double) / 2e-3 (single) relative to the exact value, x10 environments / HOTRG / CTMRG / 3D, x100 for "
    "fit*, src*, su, l2bp modes, local-fit and gauge-supplied compressed contraction",
]
EXPLANATION = (
    "E3 (bounded): five drivers. (1) boundary-contraction-2d: contract_boundary over mode x canonize x sequence x layer_tags x "
    "strip_exponent / equalize_norms x in-place, single steps contract_boundary_from_{xmin,xmax,ymin,ymax}, contract_mps_sweep, "
    "contract_full_bootstrap. (2) environments-2d: compute_environments (4 sides), compute_x/y_environments, "
    "compute_plaquette_environments: environment x excluded part == whole, environment bonds within the cap. (3) "
    "coarse-graining-2d: contract_hotrg, contract_ctmrg, coarse_grain_hotrg. (4) boundary-and-coarse-graining-3d: 3D "
    "contract_boundary (8 modes), contract_boundary_from, contract_peps_sweep, contract_simple_sweep, contract_ctmrg, "
    "contract_hotrg, coarse_grain_hotrg. (5) arbitrary-geometry-compressed-contraction: contract_compressed (optimizer and "
    "explicit trees, 5 compress modes, option grid, callbacks), contract_around*, compress_all / _tree / _1d / _simple, "
    "tensor_network_ag_compress (6 methods). 1D compress helpers are covered under C09.")
