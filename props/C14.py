"""C14 -- Belief propagation is exact on trees and its marginals are consistent."""
import drivers.c14  # noqa: F401   (registers the drivers)

PROP = "C14"
LEVEL = "exploration"
LEVEL_TEXT = "..."
LEVEL_NOTE = "..."
TECHNIQUE = "run-time contracts on the real functions vs independent numpy references over a stated bounded domain (bounded stand-in)"
E1 = []
PROVIDERS = []
TRUSTED = ["numpy reference computations"]
ASSUMPTIONS = ["..."]
EXPLANATION = "..."
