"""C14 -- Belief propagation is exact on trees and its marginals are consistent."""
import drivers.c14  # noqa: F401   (registers the drivers)

PROP = "C14"
LEVEL = "exploration"
LEVEL_TEXT = ("Bounded run-time contracts: all six belief-propagation flavours (D1BP, HD1BP, HV1BP, L1BP, D2BP, L2BP; function "
              "and class interfaces) are run on random acyclic networks with at most 9 tensors (chains, stars, trees, forests, "
              "hyper-trees, label dimensions 1..3, stored exponents, positive / signed / complex data) and the returned value / "
              "norm, the index and tensor marginals, reduced density matrices, sampling probabilities and the dense tensor "
              "after BP gauging / compression without truncation are compared with brute-force numpy sums over the joint array; "
              "the option grid (damping, update order, local convergence, normalisation, initial messages, return form) is "
              "sampled per case and enumerated systematically for schedule independence. Region-graph counting numbers are "
              "checked exhaustively on small families. Nothing is proved for unbounded sizes; the deductive contract on "
              "combine_local_contractions is merged from contracts/c14_bp.py.")
LEVEL_NOTE = ("Trusted: numpy broadcasting / sum / einsum / svd as reference semantics on the raw tensor data of the inputs; "
              "tolerances: messages converged with tol=1e-11 (max_iterations far above the diameter), values and marginals "
              "1e-6 relative (3e-3 for single precision with quimb's default tol); signed / complex inputs are regenerated "
              "until |Z| >= 1e-3 sum|terms| (one-norm) resp. rms|psi| >= 1e-2 mean sum|terms| per entry (two-norm): no "
              "near-cancellation; inverse-gauge routes only on networks all of whose bonds "
              "have full rank (singular-value ratio >= 1e-3).")
TECHNIQUE = "run-time contracts on the real functions vs independent numpy references over a stated bounded domain (bounded stand-in)"
E1 = []
PROVIDERS = []
TRUSTED = [
    "numpy broadcasting product, sum, einsum(optimize='greedy'), matmul and svd on dense arrays (reference semantics of value, "
    "norm, marginals, reduced density matrices, gate application, bond conditioning)",
    "the driver's own generator of acyclic factor graphs (tensor--label incidence graph is a forest by construction)",
    "cotengra path optimisers used inside quimb return valid contraction paths",
]
ASSUMPTIONS = [
    "geometries: 1..9 tensors; chains, stars, random trees, forests (2..3 components, isolated rank-0 tensors), hyper-trees / "
    "hyper-stars / hyper-forests (a label on 3+ tensors) for HD1BP / HV1BP only; label dimensions 1..3 per label (HV1BP: one "
    "dimension for all labels, as the flavour requires); outer (dangling) labels for HD1BP / HV1BP / D2BP / L2BP, none for D1BP "
    "/ L1BP (documented for D1BP; L1BP.contract() cannot handle them); lazy flavours with groups of 1..n tensors per site whose "
    "group graph is a forest; joint array capped at 1e5 entries",
    "data: positive uniform(0.2,1.2), signed normal, complex normal; float64 / complex128 everywhere, float32 / complex64 in ~15% "
    "of the value cases with quimb's default tol; stored exponent 0, +-1.3 (one-norm), +-0.7 (two-norm)",
    "options sampled per case: damping {0, 0.3, 0.7}, update {sequential, parallel} (HV1BP parallel only), local_convergence, "
    "normalize {default, L1, L2, Linf, L2phased}, strip_exponent, function vs class interface, initial messages default / "
    "uniform / random positive / supplied dictionary (D2BP: random positive definite, also partly supplied); progbar=False; "
    "diis=True in ~15% of the value cases (not L2BP), thread_pool=2 in ~30% of the HV1BP class-interface cases; custom distance "
    "/ normalisation callables, contract_every, power / smudge conditioning of D2BP and non-numpy backends are not covered",
    "a run that the rolling-mean rule ends while the messages still change by >= 1e-6 (single precision 1e-3) is reported under "
    "its own contract ('converged=True is not reported while ...') and not judged for exactness; a rolling-mean stop on a "
    "plateau below that is accepted and judged by the value",
    "gauging / compression: max_bond=None, cutoff=0.0, messages converged to 1e-11; insertion of square-root messages and "
    "removal by the returned inverses, gauge_temp and D2BP.gate_ only on networks whose bonds all have full rank (with exactly "
    "singular messages the default smudge 1e-12 makes the inverse gauges 1e12 large and the result numerically meaningless)",
    "reduced density matrices: D2BP.partial_trace for single sites and adjacent pairs, L2BP.partial_trace for one-tensor sites, "
    "normalised; sampling: positive data for the one-norm flavours, all data kinds for sample_d2bp, bias False/True resp. None/2",
    "region graphs: families of 1..3 subsets of 4 (quick) / 5 (thorough) nodes exhaustively, 600 random families of 4..6 subsets "
    "of 6 nodes, autocomplete=True only",
]
EXPLANATION = (
    "E3 (bounded): ten drivers. (1) one-norm-value-on-trees: contract_d1bp / hd1bp / hv1bp / l1bp and D1BP / HD1BP / HV1BP / L1BP "
    ".run().contract() == sum over all labels of the product of the tensors x 10**exponent, convergence reported, input "
    "untouched. (2) one-norm-marginals-and-sampling: compute_index_marginal, compute_all_index_marginals_from_messages, "
    "compute_tensor_marginal from HD1BP / HV1BP messages (class and run_belief_propagation_*), sample_hd1bp / sample_hv1bp "
    "(configuration, tn_config weight, omega == exact probability). (3) two-norm-value-and-marginals: contract_d2bp / "
    "contract_l2bp / classes == sum |psi|^2, D2BP.compute_marginal, D2BP.partial_trace, L2BP.partial_trace. (4) "
    "bp-gauging-and-compression-untruncated: gauge_all('bp'), gauge_all_belief_propagation(_), gauge_d2bp, compress_d2bp, "
    "D2BP.compress / gauge_symmetric / gauge_insert / gauge_temp, TensorNetwork.gauge_insert(bp), compress_l2bp, "
    "L2BP.compress, D2BP.gate_, D1BP / HD1BP.get_gauged_tn. (5) two-norm-sampling: sample_d2bp. (6) schedule-independence: "
    "update x damping x local_convergence x initial messages for all six flavours, values and rescaled messages. (7) "
    "region-graph-counting-numbers: RegionGraph and gen_region_counts vs intersection closure and Moebius counts. (8) "
    "combine-local-contractions. (9) bp-object-normalisations-and-corrections-on-trees: normalize_message_pairs / "
    "normalize_messages / normalize_tensors / get_normalized_tn, contract_gloop_expand / contract_loop_series_expansion / "
    "contract_with_loops on loop-free networks. (10) zero-valued-trees: every contract_*bp on chains whose exact value / state is 0.")
