"""C20 -- entanglement and information measures satisfy their defining identities."""
import drivers.c20  # noqa: F401   (registers the drivers)

PROP = "C20"
LEVEL = "exploration"
LEVEL_TEXT = "bounded run-time contracts (work in progress)"
LEVEL_NOTE = "numpy reference"
TECHNIQUE = "run-time contracts on the real functions vs independent numpy references over a stated bounded domain (bounded stand-in)"
E1 = []
PROVIDERS = []
TRUSTED = ["numpy / scipy.linalg reference computations"]
ASSUMPTIONS = []
EXPLANATION = "wip"
