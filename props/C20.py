"""C20 -- entanglement and information measures satisfy their defining identities."""
import drivers.c20  # noqa: F401   (registers the drivers)

PROP = "C20"
LEVEL = "exploration"          # bounded only (DESIGN: no discrete skeleton beyond C15's subsystem index handling)
LEVEL_TEXT = ("Bounded run-time contracts only: every routine of quimb/calc.py named by the property is evaluated on pure and mixed "
              "states (ranks 1..full, product / separable / diagonal / Werner / Bell-diagonal / X / classical-quantum) over 32 "
              "dimension lists with product <= 36 (dims of 1, single subsystem), all bipartitions and disjoint subsystem pairs "
              "(non-contiguous, reordered, int or tuple), as qarray / ndarray / scipy-sparse inputs, and compared with the textbook "
              "definition computed in plain numpy (eigvalsh / svd on explicit reshapes); invariance under random local unitaries and "
              "subsystem relabelling, bounds and pure-state identities are asserted on the same cases. Nothing is proved.")
LEVEL_NOTE = ("Trusted: numpy eigvalsh / svd / eigh / qr, scipy Nelder-Mead (discord reference: grid + 4 refinements), scipy eigsh "
              "(Heisenberg ground energy); tolerances below; the domain is the stated finite one.")
TECHNIQUE = "run-time contracts on the real functions vs independent numpy references over a stated bounded domain (bounded stand-in)"
E1 = []
PROVIDERS = []
TRUSTED = [
    "numpy.linalg eigvalsh / eigh / svd / qr and scipy.optimize / scipy.sparse.linalg.eigsh used by the references",
    "reference library in drivers/c20.py (partial trace / transpose by reshape, entropies in bits, Uhlmann fidelity as "
    "||sqrt(a) sqrt(b)||_1 with clipped spectra, Wootters concurrence, discord by grid search + Nelder-Mead)",
]
ASSUMPTIONS = [
    "domain: prod(dims) <= 36 (two-qubit measures: pairs alone or embedded in 3-4 subsystems; Pauli decomposition <= 3 qubits; "
    "cross matrices <= 5 qubits; Heisenberg energy L in 6..12)",
    "tolerances: 1e-9 relative for entropies / mutual information, 1e-8 for trace norms of operators (|eigenvalues| is Lipschitz), "
    "1e-6 absolute wherever a square root of a (possibly null) spectrum is taken -- tr_sqrt, pure-state negativity / logneg via "
    "Schmidt coefficients, fidelity with a rank-deficient argument (a clipped eigen-decomposition reaches d*sqrt(eps) ~ 5e-7; the "
    "operator path of quimb is at 2e-5 there: finding C20-a), 1e-9 for full-rank fidelity, 2e-8 absolute for trace distance "
    "(sqrt(1-F^2) of kets), 1e-7 for concurrence, 1e-5 for quantum discord (numerical optimum), 2e-3 relative for the "
    "asymptotic heisenberg_energy formula",
    "negativity / logneg are taken across the bipartition A | complement of the state as given (what the code does; the "
    "docstring of negativity mentions tracing out)",
    "quantum discord D(A|B): projective measurements on B = sysb; states on which one local COBYLA run from (pi/2, pi) on the "
    "textbook objective does not reach the global optimum are flagged in params (single_start_suboptimal)",
    "measure with a random outcome and dephase(rand_rank) use numpy's global generator: the contract is on the support / structure "
    "(outcome of non-zero probability and matching collapse; diagonal admixture of the requested rank), not on the draw",
    "simulate_counts: frequencies within 6 sigma of C*p, keys are base-phys_dim strings of length n",
    "sparse inputs: kets are passed as scipy csr in one third of the cases of the main drivers; csr density operators have their "
    "own driver (sparse-inputs) covering every measure once per dimension list",
    "approximate (Lanczos) routes are kept exact (approx_thresh default / None / 1e9 all exceed the sizes); the lazy partial-trace "
    "operators they rely on are densified and compared with the exact reduced state / partial transpose",
    "is_eigenvector: vectors whose variance lies within a decade of the tolerance are skipped (undecidable in floating point)",
]
EXPLANATION = (
    "E3 (bounded): seven drivers. entropies: entropy (operator, eigenvalue list, rank=), entropy_subsys, mutinf / "
    "mutual_information (ket, operator, rank=), mutinf_subsys (incl. the pure-bipartition route), schmidt_gap, tr_sqrt, "
    "tr_sqrt_subsys, with S(A)=S(B) and I=2S for pure states, 0 <= I <= 2 log min(dA,dB), symmetry, local-unitary and relabelling "
    "invariance, ket vs projector, approx_thresh variants. negativity: partial_transpose (matrix, involution), negativity, logneg / "
    "logarithmic_negativity, logneg_subsys vs the reduced-operator route, lazy_ptr_linop / lazy_ptr_ppt_linop densified, bounds, "
    "zero on separable states, Schmidt-coefficient formula. distances: fidelity (4 argument paths, squared), trace_distance "
    "(isherm both), Fuchs-van de Graaf, unitary invariance, identical / commuting / orthogonal pairs, purify. two-qubit: "
    "concurrence, one_way_classical_information, quantum_discord on bare and embedded pairs with analytic anchors (Bell, product, "
    "Werner, classical-quantum, pure). maps-and-measurement: kraus_op (subsystems in any order, check=), projector (degenerate, "
    "eigendecomposition input, autoblock), measure (chosen / random outcome, degenerate eigenspaces), simulate_counts, dephase. "
    "decompositions-and-correlations: pauli_decomp, bell_decomp, correlation, pauli_correlations, ent_cross_matrix, qid, "
    "is_degenerate, is_eigenvector, page_entropy, heisenberg_energy. sparse-inputs: every measure on csr kets / operators.")
