"""C02 -- network index/tag/ownership maps stay exact under any mutation history."""
import drivers.c02  # noqa: F401   (registers the drivers)

PROP = "C02"
LEVEL = "exploration"
LEVEL_TEXT = ("Bounded run-time contracts: random mutation histories over the public TensorNetwork / Tensor operations on "
              "1-5 live networks that share tensor objects; after every step each network's tensor_map / ind_map / tag_map / "
              "inner-outer classification, each tensor's owner registry, label sizes and tag/label based selection are compared "
              "with an independent recount from the tensors' own label and tag tuples and with a shadow model of the "
              "operation's abstract effect. No claim beyond the stated bounded domain.")
LEVEL_NOTE = ("Trusted: the walker's shadow model (object identity lists, expected labels/tags per operation), python dict/set "
              "counting as the recount, numpy for the data; domain bounds listed in the assumptions.")
TECHNIQUE = "run-time contracts on the real functions vs independent numpy references over a stated bounded domain (bounded stand-in)"
E1 = []
PROVIDERS = []
TRUSTED = ["python dict / set recount over Tensor.inds and Tensor.tags (shares no code with quimb's maps or oset)",
           "the walker's shadow model of each operation's abstract effect (which tensor objects a network holds, expected "
           "labels / tags); tensor_map is read only to enumerate (tid, tensor) pairs, its content is checked against the model",
           "CPython reference counting / gc.collect() frees dropped networks"]
ASSUMPTIONS = [
    "networks of <= 12 tensors, rank <= 5 (6 after new_bond), dims 1-3, at most 5 live networks, histories of 25 (quick) / "
    "60-100 (thorough) steps; one size per label across the whole world (renames only to fresh or same-size labels; "
    "fuse_multibonds_ only when no tensor outside the network carries the fused labels)",
    "one tensor object is never put twice into the same network (virtual adds / virtual combinations of overlapping "
    "networks are excluded); Tensor.tags is never mutated directly (documented as unsupported)",
    "operations whose array part cannot handle a label repeated on one tensor (isel, squeeze, split, contraction, gate, "
    "fuse, mangle) are not applied to such tensors; relabelling / membership operations are",
    "contract_tags is called only inside its documented domain of output inference (no hyper label inside the tagged set)",
    "selection with a tag / label carried by no tensor may raise KeyError instead of returning the empty selection; "
    "retag is only called with tags that are present (an absent key raises KeyError)",
    "a history is abandoned at its first violation of a persistent-state contract (completion, abstract effect, maps, "
    "inner/outer, owners, sizes, combination); the known finding (label twice on one tensor) therefore ends the history in "
    "which it fires; wrong views / selections do not end it",
    "split-gate modes of gate_inds (which name their bond literally 'b') are applied only when no tensor outside the "
    "receiver carries a label 'b'; 'split' / 'reduce-split' / eager two-site contraction only on two tensors joined by "
    "exactly one plain bond; gate targets are always given as a sequence",
]
EXPLANATION = ("E3: history walkers (random hyper-graph networks; MPS / MPO / PEPS / random-regular networks) over 25 families "
               "of public operations, with 9 run-time contracts evaluated after every step: operation completes, exact abstract "
               "effect (membership by identity, labels, tags, frame), maps == recount (+ tn.check()), inner/outer == recount, "
               "owner registry, size agreement, selection == recount, returned views/copies hold exactly the expected "
               "tensors, combination never merges/splits bonds nor renames outer labels.")
