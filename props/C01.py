"""C01 -- a tensor network denotes one value; every contraction route returns it"""
import drivers.c01  # noqa: F401   (registers the drivers)

PROP = "C01"
LEVEL = "exploration"
LEVEL_TEXT = "..."
LEVEL_NOTE = "..."
TECHNIQUE = "run-time contracts on the real functions vs independent numpy references over a stated bounded domain (bounded stand-in)"
E1 = []
PROVIDERS = []
TRUSTED = ["numpy.einsum reference computations"]
ASSUMPTIONS = []
EXPLANATION = "..."
