"""C01 -- a tensor network denotes one value; every contraction route returns it"""
import drivers.c01  # noqa: F401   (registers the drivers)

PROP = "C01"
LEVEL = "exploration"          # until the E1 (SMT) part is added by the main session; do not claim more
LEVEL_TEXT = ("Bounded run-time contracts: every public route that evaluates a tensor network (full / partial / tag-wise / "
              "cumulative / structured contraction, operators ^ >> @, to_dense, norm, overlap, trace, item, and the "
              "TNLinearOperator views) is executed on thousands of small random (hyper-)graph and 1D networks and compared "
              "with a numpy.einsum denotation times 10**exponent. Nothing is proved; the evidence is the absence of "
              "counterexamples on the stated domain apart from the listed known findings.")
LEVEL_NOTE = ("Trusted: numpy.einsum (sublist form; numpy's own pairwise ordering above 5000 index combinations) and numpy "
              "dense algebra as reference; reading "
              "t.data / t.inds / tn.exponent of a result network; scale-aware tolerances (1e-9 double, 3e-4 single, "
              "relative to the sum of the moduli of the summed terms). Domain: <= 6 tensors, rank <= 4, dims <= 3.")
TECHNIQUE = "run-time contracts on the real functions vs independent numpy references over a stated bounded domain (bounded stand-in)"
E1 = []                        # filled later by the main session
PROVIDERS = []
TRUSTED = [
    "numpy.einsum (sublist form) on the raw arrays and labels is the denotation of a network; numpy dense linear algebra",
    "quimb is only used to read .data / .inds / .exponent / .tensor_map of a *result* network and to construct inputs "
    "(Tensor, TensorNetwork, MatrixProductState / MatrixProductOperator constructors, attribute assignment of exponent)",
]
ASSUMPTIONS = [
    "domain: random hypergraph networks with 1-6 tensors of rank 0-4, label dimensions in {1,2,3}, label multiplicity 1-4 "
    "(optionally a label repeated on one tensor), total label space <= 20000; 1D chains of 1-6 sites, bond dims 1-3",
    "dtypes float32/float64/complex64/complex128 (uniform per network); stored exponent in {0, +-1.5, 30, -7.25} for "
    "double and {0, +-1.5, 3} for single precision (single precision overflows with exponents ~30)",
    "tolerance: |got - ref| <= rtol * (sum of |terms|) with rtol 1e-9 (double) / 3e-4 (single), x4 for operator / norm / "
    "overlap routes, x10 for the 1D expectation values; random normal data, no special conditioning needed",
    "requests only use tags present in the network; explicit paths are random linear (opt_einsum style) paths, [(0,)] for "
    "a single tensor; output-label inference (no output_inds) is only requested where it is documented to be defined "
    "(no label of multiplicity > 2, outputs = labels occurring once); the order of *inferred* outputs is not constrained",
    "Tensor.__matmul__ is documented for two tensors: tensor @ network is not exercised",
    "each chunk runs in a daemonic worker process: cotengra is told not to create nested process pools for its "
    "hyper-optimizer (cotengra.parallel._IS_WORKER = True); path search itself is unchanged",
]
EXPLANATION = (
    "E3 (bounded): five drivers. full-contraction-routes: contract(all|...|tags), contract_tags, contract_cumulative, "
    "tensor_contract, ^, ^=, >>, >>=, item with output_inds / optimize / strip_exponent / preserve_tensor / inplace / "
    "equalize_norms varied. partial-contraction: contract / contract_tags (which any/all/!any/!all) / cumulative / "
    "contract_between / contract_ind / operators on a proper subset, result network re-evaluated by einsum. "
    "dense-norm-overlap-trace-matmul: to_dense groupings, norm, overlap, trace, @. linear-operator: TNLinearOperator "
    "matvec / matmat / rmatvec / .H / .T / conj / astype / to_dense / trace. structured-1d: MPS / MPO / <bra|ket> / "
    "<bra|op|ket> through contract(...), slices and contract_structured.")
