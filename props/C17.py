"""C17 -- Eigen/singular/exponential solvers return genuine, correctly selected results"""
import drivers.c17  # noqa: F401   (registers the drivers)

PROP = "C17"
LEVEL = "exploration"          # until the E1 (SMT) part is added by the main session; do not claim more
LEVEL_TEXT = ("Bounded run-time contracts only: every public solver of quimb.linalg (partial and full eigensolvers with all "
              "convenience wrappers, relative windows, svd / svds, norms, expm / expm_multiply / sqrtm, autoblock, rsvd / "
              "estimate_rank, the stochastic spectral-function estimators) is run on matrices built from a PRESCRIBED spectrum "
              "(so the correct selection is known without any solver) for sizes on both sides of the backend auto-selection "
              "thresholds, all available backends (numpy, scipy, lobpcg, AUTO; slepc / primme absent), dense / sparse / "
              "LinearOperator / Lazy inputs, and checked for: values == requested selection, documented order, residual, "
              "orthonormality, defining equations. Nothing is proved beyond the stated sizes and spectra.")
LEVEL_NOTE = ("Trusted: numpy.linalg (qr, eigh, eigvalsh, svd), scipy.linalg.expm as second reference; tolerances per solver "
              "family (dense 1e-9, ARPACK 1e-7, lobpcg 2e-3; stochastic estimators 10 %); the selection boundary is kept "
              "separated (>= max(0.05, 0.04 R) for a spectrum in [-R, R]); 4 input classes on which the unchanged library "
              "crashes or returns a different part of the spectrum are recorded as known findings C17-a..d.")
TECHNIQUE = "run-time contracts on the real functions vs independent numpy references over a stated bounded domain (bounded stand-in)"
E1 = []                        # filled later by the main session
PROVIDERS = []
TRUSTED = [
    "numpy.linalg.qr / eigh / eigvalsh / eigvals / svd and scipy.linalg.expm used to build and cross-check references",
    "the construction A = Q diag(lam) Q^+ (Q unitary) resp. S diag(lam) S^-1 (cond(S) ~ 2) reproduces the prescribed "
    "spectrum to ~1e-14",
    "scipy's ARPACK / LOBPCG / interpolative routines are leaf solvers: their convergence on well separated spectra is "
    "trusted, their selection / ordering as used by quimb is what is checked",
]
ASSUMPTIONS = [
    "sizes d in {6,20,44,45,63,64,99,100,141,142} (thresholds d^2/k = 2000 without and 10000 with a target), k in {1,2,5}; "
    "spectra uniform in [-R, R] (squares for complex spectra), R = max(3, d/15); boundary of the selection separated by "
    ">= max(0.05, 0.04 R); exact degeneracies only strictly inside or outside the selection, and inside the selection only for "
    "the dense and lobpcg backends (ARPACK, a single-vector Krylov method, cannot reliably resolve exact multiplicities; when "
    "it does find both copies of a complex Hermitian matrix the two vectors come back non-orthogonal -- observed, reported, "
    "outside the stated domain)",
    "which='SM' is only exercised on the dense backend (ARPACK's SM mode without shift-invert does not converge reliably -- "
    "scipy documents this); LinearOperator inputs with a target only for d <= 20 and never for generalized problems (inner "
    "iterative solves take seconds / do not converge); lobpcg only for SA / LA on spectra with well separated extremal "
    "levels (default 30 iterations), tolerance 2e-3 on values, 5e-2 on residuals",
    "selection rules are read as documented in numpy_linalg.sort_inds: TR / TM / TI = real part / magnitude / imaginary part "
    "nearest the target; SA / LA are not used for non-Hermitian problems (undefined order; scipy rejects them)",
    "sort=True means ascending (numpy's lexicographic order for complex values); sort=False is only checked on the dense "
    "backend (order of the selection rule)",
    "combinations believed unsupported are 'rejected or right': numpy backend with a LinearOperator, lobpcg with a target or "
    "other rules, full dense decomposition / trace norm / sqrtm of sparse input, non-Hermitian autoblock",
    "eigh_window family: the returned values must be true eigenvalues inside the open relative window, contain the "
    "min(k, #inside) nearest to the centre, be ascending, with small residual -- the dense route returns all levels in the "
    "window, the iterative route at most k; both satisfy this",
    "estimate_rank: with use_sli (default for double precision) the answer comes from scipy.linalg.interpolative, which in "
    "the installed scipy returns min(shape) for exactly low-rank input -- only 'never under-estimates' is required there; "
    "quimb's own estimator must lie in [r, r+2] (it counts one value below the threshold by design)",
    "stochastic estimators: fixed seeds, tol=1e-2, accepted within 10 %; exactness is checked where the algorithm is exact "
    "(full Krylov space from a given start vector; multiples of the identity)",
]
EXPLANATION = (
    "E3 (bounded): 7 drivers. partial-hermitian / partial-general / generalized: eigensystem_partial and eigh / eigvalsh / "
    "eigvecsh / eig / eigvals / eigvecs with k over backends x representations x rules x targets x sizes across the "
    "auto-selection thresholds: values == the exact selection from the prescribed spectrum, order, residual, (B-)"
    "orthonormality (a separate contract). full-and-wrappers: full decompositions with sort both ways, groundstate / "
    "groundenergy / bound_spectrum, the three window functions. svd-norm-matfun: svd, svds (k largest triplets, "
    "descending, A v = s u), every norm alias, expm / expm_multiply against the exponential known from the construction, "
    "sqrtm defining equation and branch. autoblock: hidden block structure (dense, chain, star, tree blocks, kernel rows) vs "
    "direct dense computation. rand-approx: rsvd in every mode on exactly low-rank matrices, estimate_rank, exact and "
    "statistical cases of approx_spectral_function and the subsystem estimators.")
