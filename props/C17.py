"""C17 -- Eigen/singular/exponential solvers return genuine, correctly selected results"""
import drivers.c17  # noqa: F401   (registers the drivers)

PROP = "C17"
LEVEL = "exploration"
LEVEL_TEXT = "tbd"
LEVEL_NOTE = "tbd"
TECHNIQUE = "run-time contracts on the real functions vs independent numpy references over a stated bounded domain (bounded stand-in)"
E1 = []
PROVIDERS = []
TRUSTED = ["numpy / scipy.linalg reference computations"]
ASSUMPTIONS = []
EXPLANATION = "tbd"
