"""C04 -- gauging, canonization and simplification preserve the denoted tensor"""
import drivers.c04  # noqa: F401   (registers the drivers)

PROP = "C04"
LEVEL = "exploration"
LEVEL_TEXT = "..."
LEVEL_NOTE = "..."
TECHNIQUE = "run-time contracts on the real functions vs independent numpy references over a stated bounded domain (bounded stand-in)"
E1 = []
PROVIDERS = []
TRUSTED = ["numpy.einsum reference computations"]
ASSUMPTIONS = []
EXPLANATION = "..."
