"""C04 -- gauging, canonization and simplification preserve the denoted tensor"""
import drivers.c04  # noqa: F401   (registers the drivers)

PROP = "C04"
LEVEL = "exploration"          # until the E1 (SMT) part is added by the main session; do not claim more
LEVEL_TEXT = ("Bounded run-time contracts: every rewrite the property names (canonize_between / canonize_around, "
              "gauge_all_* and gauge_local, insert_gauge, balance_bonds, equalize_norms / strip_exponent / "
              "distribute_exponent, fuse_multibonds, squeeze, compress_* without truncation, the external-gauge "
              "workflow, rank / diagonal / antidiag / column / split / pair / loop / full simplify, hyperinds_resolve, "
              "compress_simplify) is applied alone and in random compositions to thousands of small tree, loopy, hyper "
              "and zero-structured networks; each step must leave the dense tensor over the same outer labels unchanged "
              "(reference: numpy bucket elimination over the raw arrays times 10**exponent) and deliver the form it "
              "promises. Nothing is proved.")
LEVEL_NOTE = ("Trusted: numpy.einsum per elimination step, numpy.linalg for the isometry defect; reading .data / .inds / "
              ".tags / .left_inds / .exponent of the result. Tolerances relative to the sum of |terms| (at least 1% of the "
              "product of the tensor norms): 1e-8 (1e-6 for iterative / inverse-based gauges) double, 1e-3 (5e-3) single.")
TECHNIQUE = "run-time contracts on the real functions vs independent numpy references over a stated bounded domain (bounded stand-in)"
E1 = []                        # filled later by the main session
PROVIDERS = []
TRUSTED = [
    "numpy.einsum (sublist form, one bucket per eliminated label) on the raw arrays and labels is the denotation of a "
    "network; numpy dense linear algebra for isometry defects and norms",
    "quimb is only used to construct inputs (Tensor(data, inds, tags, left_inds), TensorNetwork, exponent attribute) and "
    "to read .data / .inds / .tags / .left_inds / .exponent / .tensor_map of results",
]
ASSUMPTIONS = [
    "domain: <= 6 tensors (thorough 8) of rank <= 5, label dimensions {1,2,3}; gauging rewrites on plain networks (every "
    "label on one or two tensors, outputs = labels occurring once); simplification passes also on hyper networks (label "
    "multiplicity <= 4) with explicit output_inds (outputs that are bonds / hyper labels, dangling labels summed) and on "
    "networks holding a tensor with a repeated label (as diagonal_reduce leaves them)",
    "compression is only called without truncation: cutoff=0.0 and max_bond None or >= the bond",
    "insert_gauge with gauges of condition number <= 4; gauge_all_random(unitary=False), belief-propagation gauging "
    "(and only on the random dense networks of the gauging driver) and the simple-update family (gauge_all_simple, "
    "compress_all_simple, gauge_local(method='simple'), every call with an external gauges dict) in double precision "
    "only: they multiply by inverse singular values / inverse square roots of message spectra (smudge 1e-12), which "
    "overflows single precision on bonds that are or become rank deficient",
    "passes that detect structure with the absolute atol=1e-12 (diagonal / antidiag / column / split / pair / loop / "
    "full / compress simplify) only on networks whose tensors have 1e-6 <= max|entry| <= 1e6 (after simple-update "
    "gauging of rank deficient networks tensors of norm 1e-12 occur, which an absolute tolerance cannot tell from 0)",
    "every rewrite call runs under a 90 s wall-clock limit (8 s for full_simplify sequences containing both S and P, "
    "which are drawn at a 2% rate only, finding C04-m); exceeding it is reported as non-termination",
    "the isometry claim of a flagged tensor is not evaluated when a renaming put one label on it twice",
    "networks that are identically zero (all terms vanish structurally) are not given to rewrites that divide by a norm "
    "(gauge_all_simple, compress_all_simple, compress_between / compress_all*, BP gauging, gauge_local, external "
    "gauges, equalize_norms inside passes); "
    "equalize_norms / strip_exponent on a zero tensor are called with the documented check_zero=True",
    "each step is judged against the network it received (dense before == dense after), so one defective rewrite does "
    "not propagate into the verdict of the next; a sequence stops at the first violated step",
    "canonical-region check only on trees with unlimited distance, absorb='right' and a connected region; bond-size "
    "check per pair of tensors for the rewrites that keep the tensors",
    "each chunk runs in a daemonic worker: cotengra.parallel._IS_WORKER = True (no nested process pools)",
]
EXPLANATION = (
    "E3 (bounded): three drivers composing rewrites in random orders. gauging-compositions: tree / loopy / multibond / "
    "disconnected plain networks under canonize / gauge / balance / equalize / fuse / squeeze / untruncated compress. "
    "simplification-compositions: structured (diagonal, antidiagonal, COPY, column, rank-one, identity) and hyper "
    "networks under every simplification pass, hyperinds_resolve and compress_simplify, interleaved with the gauging "
    "rewrites whenever the current network is plain. external-gauges: the simple-update gauge dictionary workflow. "
    "Post-conditions: same dense tensor over the same outer labels, consistent label sizes, tensors flagged with "
    "left_inds are isometries, canonical region, bonds not larger, equal norms, no multibonds / size-1 / hyper labels "
    "left where promised, receiver untouched by non-in-place calls.")
