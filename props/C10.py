"""C10 -- DMRG is variational and reports the energy of the state it returns."""
import drivers.c10  # noqa: F401   (registers the drivers)

PROP = "C10"
LEVEL = "exploration"
LEVEL_TEXT = ("Bounded run-time contracts only: DMRG1 / DMRG2 / DMRGX are run on hundreds of small open Hermitian MPO "
              "Hamiltonians (L <= 8, spin-1/2 and spin-1, real-symmetric and genuinely complex) with many sweep sequences, "
              "bond / cutoff schedules and initial states; the reported energies, the returned state, its bond dimensions "
              "and the sweep-by-sweep energies are compared with dense linear algebra (numpy eigh of ham.to_dense()). "
              "Periodic Hamiltonians: energy / state consistency only. Nothing is proved for all inputs.")
LEVEL_NOTE = ("Trusted: numpy.linalg.eigh and vdot on ham.to_dense() (rows = upper labels) and state.to_dense(); the seeded "
              "library random state for default initial guesses; tolerances and domain bounds below.")
TECHNIQUE = "run-time contracts on the real functions vs independent numpy references over a stated bounded domain (bounded stand-in)"
E1 = []
PROVIDERS = []
TRUSTED = [
    "numpy reference computations (dense spectrum, Rayleigh quotients, fidelities)",
    "MatrixProductOperator.to_dense() / MatrixProductState.to_dense() as the observation of Hamiltonian and state (C09)",
    "DMRG._compute_post_sweep as the documented plug-in point called once after every sweep (used to read the bond sizes)",
]
ASSUMPTIONS = [
    "domain: open chains L 2..8 (d=2), 2..5 (d=3); from_dense Hamiltonians L <= 6 (d=2) / 4 (d=3); Hermiticity of the MPO checked densely (1e-9)",
    "energy consistency 1e-8 of the band width; exactness 1e-6 and fidelity >= 1 - 1e-5 only when the target level is separated by >= 1e-2 of the "
    "band width, the cap admits the exact state (d^(L/2)), the last cutoff is <= 1e-10 and the run converged (solve returned True or the last two "
    "sweep energies agree to 1e-9)",
    "monotonicity only for untruncated runs (cap d^(L/2), cutoff 0): 1e-8 inside a sweep, 1e-5 (DMRG1, noisy bond expansion) / 1e-8 (DMRG2) across sweeps",
    "complex Hermitian Hamiltonians: every contract is evaluated up to complex conjugation of the state, plus a separate orientation contract",
    "periodic Hamiltonians: L 4..6, documented small-ring options (periodic_segment_size = 1, nullspace fudge 1e-6), tolerance 1e-4 of the band width",
    "DMRGX: energy / variance consistency and cap only (it targets an excited state near the initial one: no exactness contract)",
]
EXPLANATION = (
    "dmrg-open: per run (Hamiltonian family x DMRG1/2 x cap x sweep sequence x cutoff schedule x initial state x SA/LA) the contracts: reported energy "
    "== psi^dag H psi of the returned state == state.H @ ham.apply(state); state normalised; bookkeeping of energies / total_energies / local_energies; "
    "all total energies inside the spectrum; bond sizes <= scheduled cap after every sweep; monotone total energy without truncation; energy and state "
    "== exact eigenpair when the cap admits it and the run converged; for complex Hermitian H additionally: not the complex conjugate. "
    "dmrgx-and-periodic: DMRGX energy / variance / cap; periodic DMRG1 / DMRG2 energy-state consistency.")
