"""C09 -- MPS/MPO arithmetic and 1D compression match dense linear algebra."""
import drivers.c09  # noqa: F401   (registers the drivers)

PROP = "C09"
LEVEL = "exploration"
LEVEL_TEXT = ("Bounded run-time contracts only: the real constructors, named generators, arithmetic, application, overlap / "
              "expectation / trace / partial-trace / transpose routines and every registered 1D compression method are run "
              "on thousands of small random chains (L <= 8) and their dense results compared with plain numpy linear "
              "algebra; caps, canonical forms (independent isometry defects) and the discarded-weight error bound of the "
              "canonical methods are checked from dense SVDs. Nothing is proved for all inputs.")
LEVEL_NOTE = ("Trusted: numpy einsum / kron / svd reference computations and the driver's own chain contraction; to_dense() "
              "of inputs and outputs as the observation (itself validated against the einsum chain for networks built from "
              "raw arrays); tolerances below; the domain bounds listed per driver.")
TECHNIQUE = "run-time contracts on the real functions vs independent numpy references over a stated bounded domain (bounded stand-in)"
E1 = []
PROVIDERS = []
TRUSTED = [
    "numpy / scipy.linalg reference computations (einsum chain contraction, Kronecker products, dense SVD across each cut)",
    "MatrixProductState / MatrixProductOperator.to_dense() as the observation of a result (validated against the einsum "
    "chain on every network built from raw arrays by the construct-and-densify driver)",
    "isometry defects computed from the raw .data / .inds of the returned tensors",
]
ASSUMPTIONS = [
    "domain: chains of length 1..8 (periodic: 3..6), site-dependent physical dimensions 1..3, bond dimensions 1..5, dtypes "
    "float32/float64/complex64/complex128, stored exponents in {0, 0.7, 0.9, -1.3}; total dense dimension <= 1500",
    "tolerances (relative to the largest entry / the norm): double 1e-9..1e-7 for direct linear algebra, single 3e-4..3e-3; "
    "compression identity: direct/zipup/sdc 1e-7, dm 1e-6, src*/fit* 1e-5 (single 3e-3..1e-2); canonical form: isometry "
    "defect <= 1e-7 (single 2e-3)",
    "'nothing needs truncating' means: the cap admits the bond dimension of the input representation (product of the bonds "
    "crossing a cut); for the methods that truncate optimally in a canonical gauge (direct, dm, MPS.compress(left/right/int), "
    "compress_site) it means: the cap admits the Schmidt ranks of the dense input",
    "error bound of the canonical sweep: ||x - x'||^2 <= sum over cuts of the discarded squared singular values of the dense "
    "INPUT across that cut at the output's bond size (nested projectors); Eckart-Young lower bound checked for every method",
    "periodic chains of length 1 and 2 (self loop / double bond) are only constructed and densified; mps.partial_trace / "
    "mps.ptr are deliberately disabled stubs (renamed to partial_trace_to_mpo) and not counted",
    "randomised methods (src*, srcmps*, fit with a random guess) are seeded through their `seed` argument",
]
EXPLANATION = (
    "Six drivers. construct-and-densify: MatrixProductState / MatrixProductOperator from raw arrays in every layout string, on "
    "site subsets, from_dense (incl. unsorted / gapped site tuples), from_fill_fn, fill_empty_sites vs an einsum chain. "
    "named-generators: every MPS_* / MPO_* generator of tensor_builder vs explicit dense vectors and Kronecker products. "
    "arithmetic-vs-dense: + - * / negation, overlaps, norms, distance, normalize, expec_TN_1D, apply (vector and operator, "
    "all which_A x which_B pairings, lazy gating), traces, conjugation, (partial) transposes, sub-MPOs on site subsets, "
    "partial traces, Schmidt states, permute_arrays. compress-every-method: all 17 dispatcher methods x sweep direction x six "
    "input kinds: identity when untruncated, cap, canonical centre, Eckart-Young and (direct) discarded-weight bounds. "
    "flat-compress-and-gate: MPS/MPO.compress(form), left/right_compress, compress_site, expand_bond_dimension, "
    "gate_with_mpo / gate_with_submpo / mps_gate_with_mpo_*, apply/add with compress=True. compress-options: fit of sums of "
    "networks, sweep sequences, initial guesses, site_tags order, canonize=False, permute_arrays.")
