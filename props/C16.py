"""C16 -- threaded and parallel kernels give the serial answer for every schedule."""
import contracts.c16_threads  # noqa: F401  (registers contracts + lemmas)
import drivers.c16  # noqa: F401

PROP = "C16"
LEVEL = "proof"
LEVEL_TEXT = ("Contract-based deductive proof, for all sizes / thread counts / block sizes, of the partition arithmetic and of "
              "23 real functions of quimb/core.py (11 threaded kernels, maybe_multithread, 9 public wrappers): exact tiling, "
              "per-rank write frame, row value a function of the inputs, subscripts in bounds, no division by zero; schedule "
              "independence follows as a lemma over those contracts. For the operators built from terms the rank loop of each "
              "of the 8 configcore kernels is read from the source and proved to partition the serial loop (sound, disjoint, "
              "cover) for all extents and worker counts, with pass-through and rank-submission obligations on the dispatchers "
              "and on builder.py. par_reduce, gen/rand and numerical agreement of every wrapper with numpy are run-time "
              "contracts on a bounded grid (labelled bounded).")
LEVEL_NOTE = ("Trusted: executor's reading of the Python subset, ints mathematical / floats real, numba == python text, "
              "ThreadPoolExecutor runs each task once, no aliasing of outputs with inputs, z3 soundness.")
TECHNIQUE = "VCs from the real source (ast -> z3) with loop invariants and callee contracts; run-time contracts as bounded stand-in"
LEMMAS = True
CORE = "quimb/core.py"
E1 = [f"{CORE}::{n}" for n in (
    "threading_choose_num_blocks", "threading_get_block_range", "_complex_array_numba", "_phase_to_complex_numba",
    "_subtract_update_1d_numba", "_subtract_update_2d_numba", "_divide_update_1d_numba", "_divide_update_2d_numba",
    "_dot_csr_matvec_numba", "_l_diag_dot_dense_par", "_r_diag_dot_dense_par", "_outer_par", "_kron_dense_numba",
    "maybe_multithread", "complex_array", "phase_to_complex", "subtract_update_", "divide_update_", "par_dot_csr_matvec",
    "l_diag_dot_dense", "r_diag_dot_dense", "outer", "kron_dense")]
import contracts.c16_builder as _c16b  # noqa: E402

PROVIDERS = [_c16b.provider]
# run-time contracts (substring of the contract name) that exercise an E1 carrier: used to attach a concrete
# failing input to a failed obligation
BOUNDED_FOR = {
    "_complex_array_numba": ["complex_array"], "_phase_to_complex_numba": ["phase_to_complex"],
    "_subtract_update_1d_numba": ["subtract_update_ 1d"], "_subtract_update_2d_numba": ["subtract_update_ 2d"],
    "_divide_update_1d_numba": ["divide_update_ 1d"], "_divide_update_2d_numba": ["divide_update_ 2d"],
    "_dot_csr_matvec_numba": ["par_dot_csr_matvec", "scipy csr"], "_l_diag_dot_dense_par": ["l_diag_dot_dense", "ldmul"],
    "_r_diag_dot_dense_par": ["r_diag_dot_dense", "rdmul"], "_outer_par": ["outer"], "_kron_dense_numba": ["kron"],
}
TRUSTED = [
    "ThreadPoolExecutor runs every submitted task exactly once; cf.wait returns after all finished",
    "numba executes the Python text of the njit kernels (py_func) faithfully; no integer overflow below 2^63",
    "arrays handed to a kernel do not alias its output (wrappers allocate a fresh output; *_update_ kernels only "
    "read the row they write)",
    "valid CSR structure of scipy matrices (indptr monotone within [0,nnz], column indices < ncols)",
    "scalar arithmetic on array elements is an uninterpreted function of its operands (same term in every schedule)",
]
ASSUMPTIONS = [
    "schedule independence is derived from proved per-rank contracts: each rank writes only rows of its own blocks "
    "(frame), the value of a row is a function of the inputs only, blocks of different ranks are disjoint "
    "(lemma schedule-noninterference) -- the interleaving itself is not enumerated",
    "np.ceil / round are encoded as 'the integer c with c-1 < x <= c' / 'any integer within 1/2' (over-approximation "
    "of round-half-even)",
    "wrappers: proved are the allocation and shape of the output, the kernel's shape preconditions at the call site, "
    "pass-through of the thread options, that the output is freshly allocated (no aliasing with inputs) and returned; "
    "maybe_multithread: one direct call with the kernel defaults or exactly one submission per rank with the same "
    "(num_threads, target_block_size), all waited for. size_total only decides whether to thread and is not an "
    "obligation. par_reduce, kron(parallel=True) and gen/rand: bounded stand-in only",
    "operator-builder workers (configcore kernels with world_rank/world_size, builder.build_coo_data / matvec): proved for "
    "all extents and worker counts are the set obligations on the rank loop read from the source (cover / sound / "
    "disjoint against the serial loop), that rank and size occur only in the loop header, pass-through in the "
    "dispatchers, and that exactly ranks 0..world_size-1 are submitted; the loop body being the same function of the "
    "configuration in every rank is a syntactic frame argument; the gather (COO concatenation, sum of per-rank vectors) "
    "and integer div by the worker count via z3's nonlinear arithmetic are trusted / bounded",
]
EXPLANATION = (
    "E1: VCs generated from the current source of 23 functions in quimb/core.py (partition arithmetic, 11 threaded "
    "kernels, maybe_multithread, 9 public wrappers) and 13 arithmetic lemmas, all discharged by z3: partition tiles [0,N) exactly, every kernel invoked "
    "with rank r writes exactly the rows of blocks r mod T with a value that is a function of the inputs, all "
    "subscripts in bounds, no division by zero (workers cannot raise). E3 (bounded): every public wrapper vs numpy "
    "over a size x threads x block-size grid.")
