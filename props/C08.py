"""C08 -- an MPS's recorded canonical form is always true, and its consumers are correct"""
import drivers.c08  # noqa: F401   (registers the drivers)

PROP = "C08"
LEVEL = "exploration"
LEVEL_TEXT = ("Bounded run-time contracts: one canonical-form record (info dict, int / pair / 'calc' spellings, the legacy "
              "cur_orthog= argument, or none) is threaded through thousands of random operation histories on small random "
              "matrix product states and through random programs on the three MPS circuit simulators; after every operation "
              "the record, the left_inds flags, the state and every returned quantity are compared with numpy computations on "
              "the raw site arrays and on the dense vector. Nothing is proved by this part; it notices behavioural changes on "
              "the stated domain.")
LEVEL_NOTE = ("Trusted: numpy (tensordot, svd, qr, Generator) as reference; Tensor.data / .inds / .tags / .left_inds and "
              "MatrixProductState.L as read accessors; numpy's Generator.choice(p=) inverting the cdf at one uniform draw "
              "(self-checked at start-up). Tolerances 1e-8 (double) / 3e-4 (single) on isometry defects and states, x10 on "
              "derived values; 1e-4 on the state after operations that split with the documented default cutoff 1e-10 "
              "(relative discarded weight), tight when cutoff=0.0 is requested (half of those cases).")
TECHNIQUE = "run-time contracts on the real functions vs independent numpy references over a stated bounded domain (bounded stand-in)"
E1 = []
PROVIDERS = []
TRUSTED = [
    "numpy reference computations (tensordot / svd / qr / random Generator) on raw arrays",
    "read accessors Tensor.data, .inds, .tags, .left_inds, TensorNetwork.tensors, MatrixProductState.L / ind_size",
    "numpy Generator.choice(n, p=p) consumes one .random() double and inverts the cdf (checked when the driver starts; "
    "if it no longer holds the sampling contracts are reported inconclusive)",
]
ASSUMPTIONS = [
    "open-boundary MPS only (cyclic chains make no isometry claim), stored exponent 0, L 1..8, initial bond 1..4, physical "
    "dimension 2 / 3 / mixed, four dtypes, states kept normalised (a non-unitary step is followed by an independent "
    "normalisation placed inside the recorded range)",
    "operators are well conditioned (singular values in [0.5, 1.5], or identity plus a 0.35-perturbation for random "
    "sub-MPOs); a non-unitary one-site gate through the generic gate(contract=True/False) route is only applied inside the "
    "recorded range (that route does not interpret the record: stated precondition of DESIGN C08)",
    "callers of record-free operations (shift_orthogonality_center, left/right_canonicalize, gate_split) update the record "
    "as documented (DESIGN B.2) and hand a sound record in",
    "a record is counted sound only if it is a site range of the chain (0 <= cmin <= cmax < L) -- the literal statement is "
    "vacuous for out-of-range records; this is what makes measure(L-1, remove=True) a finding (C08-d)",
    "record soundness of the circuit classes is evaluated whenever _psi holds exactly one tensor per site (CircuitMPSLazy "
    "between compressions makes no claim)",
    "history lengths <= 12 (quick) / <= 60 (thorough) operations; circuit programs <= 10 / <= 24 steps on 2..6 qubits",
]
EXPLANATION = (
    "Driver mps-record-histories: random histories over canonicalize(_)/canonize, shift_orthogonality_center, "
    "left/right_canonicalize(_), gate(_) in every MPS mode, gate_split(_), gate_with_auto_swap(_), gate_with_submpo(_), "
    "gate_nonlocal(_), swap_sites_with_compress(_), swap_site_to(_), compress_site, singular_values, schmidt_values, entropy, "
    "schmidt_gap, bipartite_schmidt_state, magnetization, partial_trace_to_dense_canonical, local_expectation_canonical, "
    "compute_local_expectation_canonical, measure(_), sample_configuration, sample. Four contracts per operation: the record "
    "is sound for the object the caller goes on using (isometry defects recomputed with numpy), flagged left_inds are "
    "isometries, the state equals the dense reference (and the receiver of a non-in-place call is unchanged), the returned "
    "quantity equals its dense-state definition (SVD of the reshaped vector, reduced density matrices, <O>, spin operators "
    "from an own table, measurement / sampling outcomes consistent with the dense probabilities at the same uniform draws). "
    "Driver circuit-mps-record: CircuitMPS / CircuitPermMPS / CircuitMPSLazy keep Sound(gate_opts['info'], _psi) over "
    "gates, local_expectation, sample, fidelity_estimate, copy; local_expectation and fidelity_estimate agree with the "
    "stored state.")
