"""C08 -- an MPS's recorded canonical form is always true, and its consumers are correct"""
import drivers.c08  # noqa: F401   (registers the drivers)

PROP = "C08"
LEVEL = "exploration"
LEVEL_TEXT = "bounded run-time contracts only"
LEVEL_NOTE = ""
TECHNIQUE = "run-time contracts on the real functions vs independent numpy references over a stated bounded domain (bounded stand-in)"
E1 = []
PROVIDERS = []
TRUSTED = ["numpy reference computations"]
ASSUMPTIONS = []
EXPLANATION = ""
