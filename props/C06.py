"""C06 -- applying a gate equals multiplying by the operator, in every application mode."""
import drivers.c06  # noqa: F401   (registers the drivers)

PROP = "C06"
LEVEL = "exploration"
LEVEL_TEXT = ("Bounded run-time contracts only (no deductive part yet): every gate entry point (TensorNetwork.gate_inds / "
              "gate_sandwich_inds / gate_inds_with_tn, Tensor.gate, the arbitrary-geometry / 1D / 2D .gate methods with every "
              "contract mode, gate_simple_, the MPS entry points gate_split / gate_with_auto_swap / gate_nonlocal / "
              "gate_with_submpo / gate_with_mpo / swaps, the operator spellings gate_upper / gate_lower / gate_sandwich and "
              "MatrixProductOperator.gate_sandwich_with_auto_swap) is executed on small networks and the dense form of the "
              "result compared with the operator embedded by numpy.tensordot applied to the dense form before. Holds on the "
              "stated domain only; 2 genuine defects of the unchanged tree are listed as known findings.")
LEVEL_NOTE = ("Trusted: the pairwise numpy.einsum contraction of the raw arrays (drivers/c06.py::dense_of) and numpy.tensordot as "
              "reference; tolerance 1e-9 relative (1e-7 for MPO-based routes and simple update).")
TECHNIQUE = "run-time contracts on the real functions vs independent numpy references over a stated bounded domain (bounded stand-in)"
E1 = []
PROVIDERS = []
TRUSTED = [
    "numpy.einsum / numpy.tensordot on the raw tensor arrays as the dense semantics of a network (times 10**exponent)",
    "the network constructors (MatrixProductState / MatrixProductOperator from arrays, PEPS.rand, view_as) only attach labels",
]
ASSUMPTIONS = [
    "networks with at most 6 sites, physical dimensions 1..3, bond dimensions 1..3; real and complex double precision",
    "all splitting modes are run with cutoff=0 (no truncation); truncating behaviour is the subject of C05 / C09",
    "a contract mode may be rejected where the documentation does not promise it for the geometry (split / reduce-split on "
    "non-neighbouring sites or multi-bonds, gate-splitting modes on 3+ sites, MPS-only modes on periodic chains, dagger / "
    "transpose through the MPS-only modes): rejections and incidental crashes there are counted, not reported; an accepted "
    "call must be right",
    "tag propagation is checked for the lazy modes against the documented rule (False / True / 'sites' / 'register'; default "
    "'sites' for 1D / 2D, False for arbitrary geometry)",
    "gate_simple_ is checked with renorm=False on the network with its gauges multiplied into the bonds; smudge 1e-12",
    "hyper-indices, parametrised gates (PTensor), block-sparse / fermionic arrays, gate_fit_local_, 3D networks and "
    "gate_simple with renormalisation are not covered",
]
EXPLANATION = (
    "Five bounded drivers: vector-gate-modes (MPS open / periodic, PEPS, graphs x contract modes x 1-3 site gates x "
    "transpose / dagger x propagate_tags x in-place), mps-entry-points, operator-gates (sandwich / upper / lower on MPO and "
    "general operator networks, gate_sandwich_with_auto_swap incl. stored exponent), raw-labels (plain networks incl. labels "
    "clashing with internal names, gate_inds_with_tn, Tensor.gate), gate-simple (bond gauges, nearest neighbour and long range).")
