"""C06 -- applying a gate equals multiplying by the operator, in every application mode."""
import drivers.c06  # noqa: F401   (registers the drivers)

PROP = "C06"
LEVEL = "exploration"
LEVEL_TEXT = "wip"
LEVEL_NOTE = "wip"
TECHNIQUE = "run-time contracts on the real functions vs independent numpy references over a stated bounded domain (bounded stand-in)"
E1 = []
PROVIDERS = []
TRUSTED = ["numpy einsum / tensordot reference computations"]
ASSUMPTIONS = []
EXPLANATION = "wip"
