"""C05 -- tensor decomposition: exact when untruncated, optimal and honest when truncated."""
import drivers.c05  # noqa: F401   (registers the drivers)

PROP = "C05"
LEVEL = "exploration"
LEVEL_TEXT = ("Bounded run-time contracts only (no deductive part yet): every public decomposition entry point "
              "(array_split, tensor_split, Tensor.split, TensorNetwork.split, and the generic _default_fn split drivers) is "
              "executed on ~1e5 (quick) / ~1e6 (thorough) small inputs and its output compared with plain numpy linear algebra: "
              "reconstruction / Eckart-Young optimality, minimality of the kept rank against an independent implementation of "
              "the documented cutoff rule, renormalisation, info['error'], isometry of documented / flagged factors, label and "
              "tag bookkeeping, agreement of the accelerated and generic implementations. Holds on the stated domain only; "
              "12 genuine defects of the unchanged tree are listed as known findings.")
LEVEL_NOTE = ("Trusted: numpy.linalg.svd / qr and matrix products as reference; tolerances 1e-9..1e-7 (double), 1e-3 (single), "
              "looser for Gram-based (svd:eig, qr:cholesky) and iterative methods; values within the tolerance of a cutoff "
              "threshold are unconstrained (ties).")
TECHNIQUE = "run-time contracts on the real functions vs independent numpy references over a stated bounded domain (bounded stand-in)"
E1 = []
PROVIDERS = []
TRUSTED = [
    "numpy.linalg.svd / numpy.linalg.qr / matrix products in double precision as reference semantics",
    "the documented cutoff rule as re-implemented in drivers/c05.py::_rule_k (abs / rel: values above the threshold are kept; "
    "(r)sum1/2: least k whose discarded tail sum is below the target; never zero; capped by max_bond)",
]
ASSUMPTIONS = [
    "matrices up to 12x12 (iterative drivers and svd:rand sketch regime up to 24x24), tensors with at most 3 labels per side",
    "info['error'] is compared with sqrt(sum of discarded reference values squared) and with the Frobenius distance to the "
    "product before renormalisation (with renorm > 0 the distance to the renormalised product is larger by construction)",
    "renorm=True with cutoff modes abs / rel: the automatic power is not defined by the documentation; any of no "
    "renormalisation / power 1 / power 2 is accepted",
    "kept-rank contract: values within delta * s_max of a threshold are unconstrained, delta = 1e-10 (double), 1e-4 (single), "
    "1e-6 / 5e-3 for the Gram-based svd:eig",
    "Gram-based methods (svd:eig, qr:cholesky) are exercised on prescribed spectra with condition number <= 7 or exactly "
    "rank-deficient input; qr:cholesky only in its well-defined orientation (QR forms on tall, LQ forms on wide input); "
    "svd:rand on the same spectra (its power iterations lose directions with (s_i/s_0)^5 < eps) and with static truncation only, "
    "as documented",
    "eigh / eigsh on Hermitian input, square-root forms (both / lsqrt / rsqrt) on positive semi-definite input only; cholesky "
    "on positive definite input with condition number <= 4",
    "iterative drivers (svds, isvd, rsvd, eigsh): double precision, dynamic truncation only in mode 'rel' across a spectral "
    "gap, optimality only for the Krylov drivers and where the kept rank covers the input; other cutoff modes not covered",
    "rejection of a (method, absorb) combination is accepted only outside the table of combinations promised by the "
    "documentation (MUST_ACCEPT in the driver); single-factor forms with get=None may be rejected",
    "the memoised option parsers are cleared before every call in all drivers but 'memoised-options', which tests call-history "
    "dependence explicitly",
    "svd:eig on single precision through the accelerated path (known finding C05-12, a failed numba compilation per call) is "
    "subsampled 1:3 (quick) / 1:12 (thorough)",
    "batched polar / lu / iterative input and block-sparse / non-numpy backends are not covered",
]
EXPLANATION = (
    "Six bounded drivers. table-untruncated: method x absorb-spelling x cutoff-mode table with cutoff=0 on 2-d and batched "
    "input (form honesty, reconstruction, placement of the singular values, isometry of the documented factor). truncation: "
    "svd / svd:eig / eigh / auto over cutoff modes x cutoffs x max_bond x renorm through the accelerated, generic and batched "
    "paths (kept rank = least satisfying the rule, Eckart-Young error, kept values and renormalisation, info['error'], "
    "accelerated == generic). svd-rand-and-lu, iterative-methods: the remaining drivers. labelled-entry-points: Tensor.split / "
    "tensor_split / TensorNetwork.split with permuted labels, empty sides, get / matrix_svals / bond_ind / tags options "
    "(labels, tags, flags, plus all array contracts on the fused matrix). memoised-options: call-history independence.")
