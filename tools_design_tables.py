#!/usr/bin/env python3
"""regenerate the machine-written tables of DESIGN.md (between <!-- BEGIN:x --> / <!-- END:x --> markers) from
evidence/*.json, known_findings*.json, selftest/mutants_*.py and seeded/*/meta.json"""
import glob, json, os, re, subprocess, sys
ROOT = os.path.dirname(os.path.abspath(__file__))


def table_status():
    rows = ["| Prop | level | functions under contract (E1) | obligations | discharged | by back end | other obligation sources | bounded evaluations (E3) | known findings reproduced | wall s (quick) |",
            "|---|---|---|---|---|---|---|---|---|---|"]
    for i in range(1, 21):
        pid = f"C{i:02d}"
        p = os.path.join(ROOT, "evidence", pid + ".json")
        if not os.path.exists(p):
            rows.append(f"| {pid} | - | - | - | - | - | - | - | - | - |")
            continue
        ev = json.load(open(p))
        c = ev["coverage"]
        fns = c.get("functions_under_contract", [])
        ok = sum(1 for f in fns if f["status"] == "ok")
        be = ", ".join(f"{k}: {v}" for k, v in sorted(c.get("discharged_by_backend", {}).items()))
        other = len(c.get("other_obligation_sources", []))
        rows.append(f"| {pid} | {ev['level']} | {ok} of {len(fns)} | {c.get('obligations', 0)} | {c.get('discharged', 0)} | {be} | {other} | "
                    f"{c.get('bounded', {}).get('evaluations', 0)} | {len(c.get('known_findings_reproduced', []))} | {ev.get('wall_s')} ({ev['tier']}) |")
    return "\n".join(rows)


def all_findings():
    out = []
    for path in [os.path.join(ROOT, "known_findings.json")] + sorted(glob.glob(os.path.join(ROOT, "known_findings.d", "*.json"))):
        for e in json.load(open(path))["findings"]:
            out.append(e)
    return out


def table_fixed():
    rows = ["| id | property | fix commit in /repo | what failed |", "|---|---|---|---|"]
    seen = set()
    for e in all_findings():
        if e.get("status") == "fixed" and e.get("commit") and e["id"] not in seen and e["id"].startswith("F"):
            seen.add(e["id"])
            what = re.sub(r"^fixed: property=\S+ \S+ ", "", e["what"])
            rows.append(f"| {e['id']} | {e['property']} | `{e['commit']}` | {what} |")
    return "\n".join(rows)


def table_open():
    rows = ["| id | property | what fails (identified by input / call site) |", "|---|---|---|"]
    for e in sorted(all_findings(), key=lambda e: (e["property"], e["id"])):
        if e.get("status") == "open":
            rows.append(f"| {e['id']} | {e['property']} | {e['what'].replace('|', '/')} |")
    return "\n".join(rows)


def table_selftest():
    rows = ["| list | mutants | expect-fail | benign |", "|---|---|---|---|"]
    import importlib.util
    sys.path.insert(0, ROOT)
    for path in sorted(glob.glob(os.path.join(ROOT, "selftest", "mutants_*.py"))):
        src = open(path).read()
        n = len(re.findall(r"['\"]expect-fail['\"]", src))
        b = len(re.findall(r"['\"]benign['\"]", src))
        rows.append(f"| {os.path.basename(path)} | {n + b} | {n} | {b} |")
    return "\n".join(rows)


def table_seeded():
    rows = ["| seeded change | property | what it needs to manifest | caught by (quick) | caught by (thorough) |", "|---|---|---|---|---|"]
    for path in sorted(glob.glob(os.path.join(ROOT, "seeded", "*", "meta.json"))):
        m = json.load(open(path))
        rows.append(f"| {os.path.basename(os.path.dirname(path))} | {m['property']} | {m['needs']} | {m.get('caught_quick', '?')} | {m.get('caught_thorough', '?')} |")
    return "\n".join(rows)


TABLES = {"status": table_status, "fixed": table_fixed, "open": table_open, "selftest": table_selftest, "seeded": table_seeded}


def main():
    p = os.path.join(ROOT, "DESIGN.md")
    s = open(p).read()
    for name, fn in TABLES.items():
        a, b = f"<!-- BEGIN:{name} -->", f"<!-- END:{name} -->"
        if a in s and b in s:
            i, j = s.index(a) + len(a), s.index(b)
            s = s[:i] + "\n" + fn() + "\n" + s[j:]
    open(p, "w").write(s)
    print("DESIGN.md tables regenerated")


if __name__ == "__main__":
    main()
